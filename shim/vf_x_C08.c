/* C08 helper compiled against the real headers: the layout of the library context (ctx_t) as a table of
 * (group.field, offset, size, kind), so that the module can tell WHICH member of the context a call wrote to.
 * The context is one object for the sanitizers: an index that runs past an array member lands in the neighbouring
 * member without any red zone in between.  kind: 0 = plain bytes, 1 = bn_st (or an array of bn_st), 2 = bounded
 * length/index member whose valid range is [0, bound] (bound in `aux`). */
#include <stddef.h>
#include "relic.h"
#include "relic_core.h"

struct vf_x08_f { const char *name; long long off, size, kind, aux; };
#define F(g, f)        { g "." #f, (long long)offsetof(ctx_t, f), (long long)sizeof(((ctx_t *)0)->f), 0, 0 }
#define FBN(g, f)      { g "." #f, (long long)offsetof(ctx_t, f), (long long)sizeof(((ctx_t *)0)->f), 1, 0 }
#define FLEN(g, f, mx) { g "." #f, (long long)offsetof(ctx_t, f), (long long)sizeof(((ctx_t *)0)->f), 2, (long long)(mx) }

static const struct vf_x08_f vf_x08_fields[] = {
	F("err", code),
#ifdef CHECK
	F("err", last), F("err", error), F("err", number), F("err", reason), F("err", caught),
#endif
#ifdef WITH_FB
	F("fb", fb_id), F("fb", fb_poly), F("fb", fb_pa), F("fb", fb_pb), F("fb", fb_pc),
	F("fb", fb_na), F("fb", fb_nb), F("fb", fb_nc),
#if FB_TRC == QUICK || !defined(STRIP)
	F("fb", fb_ta), F("fb", fb_tb), F("fb", fb_tc),
#endif
#if FB_SLV == QUICK || !defined(STRIP)
	F("fb", fb_half),
#endif
#if FB_SRT == QUICK || !defined(STRIP)
	F("fb", fb_srz),
#ifdef FB_PRECO
	F("fb", fb_tab_srz),
#endif
#endif
#if FB_INV == ITOHT || !defined(STRIP)
	F("fb", chain), FLEN("fb", chain_len, RLC_TERMS), F("fb", fb_tab_sqr),
#endif
#endif
#ifdef WITH_EB
	F("eb", eb_id), F("eb", eb_a), F("eb", eb_b), F("eb", eb_opt_a), F("eb", eb_opt_b), F("eb", eb_g),
	FBN("eb", eb_r), FBN("eb", eb_h), F("eb", eb_is_kbltz),
#ifdef EB_PRECO
	F("eb", eb_pre), F("eb", eb_ptr),
#endif
#endif
#ifdef WITH_FP
	F("fp", fp_id), FBN("fp", prime), FBN("fp", over3),
	FBN("fp.par", par), F("fp.par", par_sps), FLEN("fp.par", par_len, RLC_TERMS),
#if FP_RDC == MONTY || !defined(STRIP)
	FBN("fp", conv), FBN("fp", one),
#endif
#if FP_INV == JMPDS || !defined(STRIP)
	FBN("fp", inv),
#endif
	FBN("fp", srt), FBN("fp", crt), F("fp", mod8), F("fp", mod18), F("fp", u), F("fp", qnr), F("fp", cnr), F("fp", ad2),
#if FP_RDC == QUICK || !defined(STRIP)
	F("fp.sps", sps), FLEN("fp.sps", sps_len, RLC_TERMS),
#endif
#endif
#ifdef WITH_EP
	F("ep", ep_id), F("ep", ep_a), F("ep", ep_b), F("ep", ep_g), FBN("ep", ep_r), FBN("ep", ep_h),
	F("ep", ep_map_u), F("ep", ep_map_c),
#ifdef EP_ENDOM
	F("ep", beta),
#if EP_MUL == LWNAF || EP_FIX == COMBS || EP_FIX == LWNAF || EP_SIM == INTER || !defined(STRIP)
	FBN("ep", ep_v1), FBN("ep", ep_v2),
#endif
#endif
	F("ep", ep_opt_a), F("ep", ep_opt_b), F("ep", ep_is_endom), F("ep", ep_is_super), F("ep", ep_is_pairf),
	F("ep", ep_is_ctmap),
#ifdef EP_PRECO
	F("ep", ep_pre), F("ep", ep_ptr),
#endif
#ifdef EP_CTMAP
	F("ep", ep_iso),
#endif
#endif
#ifdef WITH_EPX
	F("ep2", ep2_g), F("ep2", ep2_a), F("ep2", ep2_b), FBN("ep2", ep2_r), FBN("ep2", ep2_h), F("ep2", ep2_map_u),
	F("ep2", ep2_map_c), F("ep2", ep2_frb), F("ep2", ep2_opt_a), F("ep2", ep2_opt_b), F("ep2", ep2_is_twist),
	F("ep2", ep2_is_ctmap),
#ifdef EP_PRECO
	F("ep2", ep2_pre), F("ep2", ep2_ptr),
#endif
#ifdef EP_CTMAP
	F("ep2", ep2_iso),
#endif
	F("ep3", ep3_g), F("ep3", ep3_a), F("ep3", ep3_b), FBN("ep3", ep3_r), FBN("ep3", ep3_h), F("ep3", ep3_frb),
	F("ep3", ep3_opt_a), F("ep3", ep3_opt_b), F("ep3", ep3_is_twist),
#ifdef EP_PRECO
	F("ep3", ep3_pre), F("ep3", ep3_ptr),
#endif
	F("ep4", ep4_g), F("ep4", ep4_a), F("ep4", ep4_b), FBN("ep4", ep4_r), FBN("ep4", ep4_h),
	F("ep4", ep4_opt_a), F("ep4", ep4_opt_b), F("ep4", ep4_is_twist),
#ifdef EP_PRECO
	F("ep4", ep4_pre), F("ep4", ep4_ptr),
#endif
	F("ep8", ep8_g), F("ep8", ep8_a), F("ep8", ep8_b), FBN("ep8", ep8_r), FBN("ep8", ep8_h),
	F("ep8", ep8_opt_a), F("ep8", ep8_opt_b), F("ep8", ep8_is_twist),
#ifdef EP_PRECO
	F("ep8", ep8_pre), F("ep8", ep8_ptr),
#endif
#endif
#ifdef WITH_ED
	F("ed", ed_id), F("ed", ed_a), F("ed", ed_d), F("ed", ed_map_c), F("ed", ed_g), FBN("ed", ed_r), FBN("ed", ed_h),
#ifdef ED_PRECO
	F("ed", ed_pre), F("ed", ed_ptr),
#endif
#endif
#if defined(WITH_FPX) || defined(WITH_PP)
	F("fpx", qnr2), F("fpx", fp2_p1), F("fpx", fp2_p2), F("fpx", frb3), F("fpx", cnr3), F("fpx", fp3_p0),
	F("fpx", fp3_p1), F("fpx", fp3_p2), F("fpx", frb4), F("fpx", fp4_p1), F("fpx", frb8), F("fpx", fp8_p1),
#endif
#if defined(WITH_PC)
	F("gt", gt_g),
#endif
#if BENCH > 0
	F("bench", before), F("bench", after), F("bench", total),
#ifdef OVERH
	F("bench", over),
#endif
#endif
#if RAND != CALL
	F("rand", rand),
#else
	F("rand", rand_call), F("rand", rand_args),
#endif
	F("rand", seeded), F("rand", counter),
#if TIMER == PERF
	F("bench", perf_fd), F("bench", perf_buf),
#endif
#if ARCH == X86 || ARCH == X64 || ARCH == A64
	F("arch", lzcnt_ptr), F("arch", tzcnt_ptr),
#endif
	{ NULL, 0, 0, 0, 0 }
};

const char *vf_x08_field_name(int i) { return vf_x08_fields[i].name; }
long long vf_x08_field_off(int i) { return vf_x08_fields[i].off; }
long long vf_x08_field_size(int i) { return vf_x08_fields[i].size; }
long long vf_x08_field_kind(int i) { return vf_x08_fields[i].kind; }
long long vf_x08_field_aux(int i) { return vf_x08_fields[i].aux; }
long long vf_x08_sizeof_ctx(void) { return (long long)sizeof(ctx_t); }
long long vf_x08_terms(void) { return RLC_TERMS; }
long long vf_x08_fp_bits(void) {
#ifdef WITH_FP
	return RLC_FP_BITS;
#else
	return 0;
#endif
}
